------------------------------ MODULE ConnTrack ------------------------------
(***************************************************************************)
(* Connection tracking of one router (router/connections.go, the policy    *)
(* half of router/tun.go and router/traffic.go, router/ping_error.go).     *)
(* Beyond the listed properties: grown from C06/C07, explored by X02.      *)
(*                                                                         *)
(* Every 5-tuple the router has seen has an entry with a verdict           *)
(*   allowed | prohibited (local policy) | denied, rejected (told by the   *)
(*   remote) | unreachable (told by anybody)                               *)
(* and the time it was last seen.  One named action per critical section   *)
(* of the code:                                                            *)
(*   Out(k)   handleTunPacket: checkPolicy (create or touch the entry),    *)
(*            then checkSimilarOutboundStatus (copy a recent verdict of a  *)
(*            similar outbound entry; Go's map order picks WHICH one)      *)
(*   In(k)    handleIncomingTraffic: checkPolicy only                      *)
(*   Err(..)  ErrorPingHandler.Handle: per (sender, code) cool-down of     *)
(*            10 s, then markRouter / markConnectionDst                    *)
(*   Tick     6 seconds pass;  Jump  more than ten minutes pass            *)
(*   Clean    cleanConnStates: short-lived (ICMP) entries unseen for 10 s  *)
(*            and all entries unseen for 10 min are forgotten              *)
(*                                                                         *)
(* Ages are classes: 0 = now, 1 = 6 s, 2 = 12 s .. 10 min, 3 = > 10 min.   *)
(***************************************************************************)
EXTENDS Integers, FiniteSets, TLC, Json, Sequences

CONSTANTS Remotes,      \* remote routers
          Friends,      \* the friends among them
          Isolated,     \* router.isolate
          OpenSvcs,     \* services the configuration opens to everybody
          OutKeys,      \* 5-tuples the local host sends on: <<remote, service, local port, "out">>
          InKeys,       \* 5-tuples remote hosts send on to a local service port: <<remote, service, 0, "in">>
          Senders,      \* the routers that send error pings (any authenticated router can)
          Codes,        \* the error codes they use, out of {"unreachable", "denied", "rejected"}
          Mirror        \* TRUE: remote hosts also send packets that mirror the outbound 5-tuples
(* The table is keyed by the 5-tuple WITHOUT direction: the packet that mirrors an outbound 5-tuple (the       *)
(* answer of the remote host) finds the outbound entry - In(k) for k in OutKeys.                                *)

Svcs == {"t80", "t81", "ic"}                \* tcp/80, tcp/81, ICMPv6 (short-lived, no ports)
Keys == OutKeys \cup InKeys
Statuses == {"none", "allowed", "prohibited", "unreachable", "denied", "rejected"}

VARIABLES ent,     \* key -> [st, age]; st = "none": no entry
          rcvd,    \* <<sender, code>> -> age class of the last error of that kind taken from that sender (2 = none in the last 10 s)
          quiet,   \* TRUE: the network has healed, nobody sends errors any more (used by the liveness question only)
          act
vars == <<ent, rcvd, quiet, act>>
View == <<ent, rcvd, quiet>>

OutAllowed(k) == ~Isolated \/ k[1] \in Friends
InAllowed(k) == k \in InKeys /\ k[2] \in OpenSvcs       \* the local port of an outbound 5-tuple is no service
FreshOut(k) == IF OutAllowed(k) THEN "allowed" ELSE "prohibited"
FreshIn(k) == IF InAllowed(k) THEN "allowed" ELSE "denied"
NoEntry == [st |-> "none", age |-> 0, inb |-> FALSE]

Init == /\ ent = [k \in Keys |-> NoEntry]
        /\ rcvd = [p \in Senders \X Codes |-> 2]
        /\ quiet = FALSE
        /\ act = [name |-> "init"]

(* checkSimilarOutboundStatus: the verdicts an outbound entry k may inherit right now *)
Similar(k, e) ==
  {e[k2].st : k2 \in {q \in Keys : /\ q # k /\ e[q].st # "none" /\ ~e[q].inb /\ e[q].age <= 1 /\ q[1] = k[1]
                                      /\ \/ e[q].st = "unreachable"
                                         \/ (q[2] = k[2] /\ e[q].st \in {"denied", "rejected"})}}

Out(k) ==
  /\ k \in OutKeys
  /\ LET touched == [ent EXCEPT ![k] = IF ent[k].st = "none" THEN [st |-> FreshOut(k), age |-> 0, inb |-> FALSE] ELSE [ent[k] EXCEPT !.age = 0]]
         cands == Similar(k, touched)
     IN \E v \in (IF cands = {} THEN {touched[k].st} ELSE cands) :
          /\ ent' = [touched EXCEPT ![k].st = v]
          /\ act' = [name |-> "out", r |-> k[1], s |-> k[2], lp |-> k[3], verdict |-> v, cands |-> cands]
  /\ UNCHANGED <<rcvd, quiet>>

In(k) ==
  /\ k \in InKeys \/ (Mirror /\ k \in OutKeys)
  /\ LET e == IF ent[k].st = "none" THEN [st |-> FreshIn(k), age |-> 0, inb |-> TRUE] ELSE [ent[k] EXCEPT !.age = 0]
     IN /\ ent' = [ent EXCEPT ![k] = e]
        /\ act' = [name |-> "in", r |-> k[1], s |-> k[2], lp |-> k[3], dir |-> k[4], verdict |-> e.st]
  /\ UNCHANGED <<rcvd, quiet>>

(* an authenticated error ping from `from`: code, the router it talks about, the service it talks about *)
Marked(code, x, s) ==
  IF code = "unreachable" THEN {k \in Keys : k[1] = x /\ ent[k].st # "none"}
  ELSE {k \in OutKeys : k[1] = x /\ k[2] = s /\ ent[k].st # "none"}   \* remote port = the service's; entries of either direction
Err(from, code, x, s) ==
  /\ ~quiet
  /\ code = "unreachable" => s = "t80"          \* the message has no service; fix the unused parameter
  /\ IF rcvd[<<from, code>>] < 2
       THEN /\ UNCHANGED <<ent, rcvd>>
            /\ act' = [name |-> "err", from |-> from, code |-> code, r |-> x, s |-> s, taken |-> FALSE]
       ELSE /\ rcvd' = [rcvd EXCEPT ![<<from, code>>] = 0]
            /\ ent' = [k \in Keys |-> IF k \in Marked(code, x, s) THEN [ent[k] EXCEPT !.st = code] ELSE ent[k]]
            /\ act' = [name |-> "err", from |-> from, code |-> code, r |-> x, s |-> s, taken |-> TRUE]
  /\ UNCHANGED quiet

Older(a) == IF a = 0 THEN 1 ELSE IF a = 1 THEN 2 ELSE a
Tick == /\ ent' = [k \in Keys |-> [ent[k] EXCEPT !.age = IF ent[k].st = "none" THEN 0 ELSE Older(@)]]
        /\ rcvd' = [p \in DOMAIN rcvd |-> IF rcvd[p] < 2 THEN rcvd[p] + 1 ELSE 2]
        /\ act' = [name |-> "tick"]
        /\ UNCHANGED quiet
Jump == /\ ent' = [k \in Keys |-> [ent[k] EXCEPT !.age = IF ent[k].st = "none" THEN 0 ELSE 3]]
        /\ rcvd' = [p \in DOMAIN rcvd |-> 2]
        /\ act' = [name |-> "jump"]
        /\ UNCHANGED quiet
Expired(k) == ent[k].st # "none" /\ (IF k[2] = "ic" THEN ent[k].age >= 2 ELSE ent[k].age = 3)
Clean == /\ ent' = [k \in Keys |-> IF Expired(k) THEN NoEntry ELSE ent[k]]
         /\ act' = [name |-> "clean"]
         /\ UNCHANGED <<rcvd, quiet>>
Heal == /\ ~quiet /\ quiet' = TRUE /\ act' = [name |-> "heal"] /\ UNCHANGED <<ent, rcvd>>

(* A hello exchange (end-to-end key set-up) with router x completes: it is no  *)
(* business of the connection table.                                           *)
Hello(x) == /\ x \in Remotes
            /\ act' = [name |-> "hello", r |-> x]
            /\ UNCHANGED <<ent, rcvd, quiet>>

Next == \/ \E k \in OutKeys : Out(k)
        \/ \E x \in Remotes : Hello(x)
        \/ \E k \in Keys : In(k)
        \/ \E from \in Senders, code \in Codes, x \in Remotes, s \in Svcs : Err(from, code, x, s)
        \/ Tick \/ Jump \/ Clean \/ Heal
Spec == Init /\ [][Next]_vars

(***************************************************************************)
(* What a user relies on.                                                  *)
(***************************************************************************)
TypeOK == /\ \A k \in Keys : ent[k].st \in Statuses /\ ent[k].age \in 0..3 /\ ent[k].inb \in BOOLEAN
          /\ \A p \in DOMAIN rcvd : rcvd[p] \in 0..2

(* S1: whatever anybody tells this router, traffic the local policy forbids is never let through *)
(*     through: a local packet leaves only if the outbound policy admits its destination; a packet from the     *)
(*     mesh reaches the local interface only if a service admits it or the local host opened that very flow     *)
PolicyHolds == /\ act.name = "out" /\ act.verdict = "allowed" => OutAllowed(<<act.r, act.s, act.lp, "out">>)
               /\ act.name = "in" /\ act.verdict = "allowed" =>
                     \/ InAllowed(<<act.r, act.s, act.lp, act.dir>>)
                     \/ (act.dir = "out" /\ OutAllowed(<<act.r, act.s, act.lp, "out">>))
(*     and an allowed entry is one the policy of the direction that created it allows                            *)
EntriesSound == \A k \in Keys : ent[k].st = "allowed" => IF ent[k].inb THEN InAllowed(k) ELSE OutAllowed(k)

(* S2: an error about router x never changes a flow with another router *)
ErrScoped == [][act'.name = "err" => \A k \in Keys : k[1] # act'.r => ent'[k] = ent[k]]_vars

(* S3: the verdict of an outbound flow turns worse only through an error that names its remote, or by     *)
(*     inheriting from a similar flow seen in the last 10 s; it never turns better except by being         *)
(*     forgotten (Clean) - THE reason for the liveness answer below                                        *)
Worse(a, b) == a = "allowed" /\ b \in {"unreachable", "denied", "rejected"}
OnlyNamed == [][\A k \in Keys : Worse(ent[k].st, ent'[k].st) =>
                   \/ (act'.name = "err" /\ act'.taken /\ act'.r = k[1])
                   \/ (act'.name = "out" /\ <<act'.r, act'.s, act'.lp, "out">> = k /\ act'.cands # {})]_vars
NeverBetter == [][\A k \in Keys : ent[k].st \notin {"none", "allowed"} => ent'[k].st # "allowed" \/ act'.name = "clean"]_vars

(* Q1 (refuted - see X02): only the router a flow goes to can have it denied.  In the code any authenticated  *)
(* router may send "access denied" for anybody's address.                                                    *)
DeniedOnlyByDst == [][act'.name = "err" /\ act'.taken /\ act'.code \in {"denied", "rejected"} /\ ent' # ent => act'.from = act'.r]_vars

(* Q2 (refuted - see X02): once the network has healed, a flow that keeps sending gets through again.        *)
(* Fairness: time passes, the cleaner runs, the application keeps sending on the same 5-tuple.               *)
Flow == CHOOSE k \in OutKeys : k[1] = 1 /\ k[2] = "ic"
LiveSpec == Spec /\ WF_vars(Tick) /\ WF_vars(Clean) /\ SF_vars(Out(Flow))
Recovers == [](quiet /\ OutAllowed(Flow) => <>(ent[Flow].st \in {"allowed", "none"}))

(* Q3 (refuted - see X02): without any error ping at all, an outbound packet gets the verdict of the outbound    *)
(* policy.  In the code a packet FROM the remote host on the mirrored 5-tuple (for ICMPv6 - no ports - any      *)
(* ICMPv6 packet from that router) creates the entry first, with the INBOUND verdict, and the local host's own  *)
(* packets then get that verdict for as long as the entry lives.                                                 *)
OutFollowsPolicy == act.name = "out" => act.verdict = FreshOut(<<act.r, act.s, act.lp, "out">>)

(* `act` is not part of the VIEW: a state predicate over act is only evaluated for the first representative of a  *)
(* view class.  The action forms below are evaluated for EVERY transition TLC generates.                          *)
PolicyHoldsA == [][PolicyHolds']_vars
OutFollowsPolicyA == [][OutFollowsPolicy']_vars

DumpEdge == PrintT("EDGE " \o ToJson(View) \o "\t" \o ToJson(act') \o "\t" \o ToJson(View'))
=============================================================================
